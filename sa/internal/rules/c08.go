package rules

import (
	"fmt"
	"go/token"
	"go/types"
	"sort"
	"strings"

	"golang.org/x/tools/go/ssa"

	"ketosa/internal/core"
)

func init() {
	Register(&Property{
		ID: "C08",
		Explanation: "Decides that all check transports funnel into one decision procedure and read its answer the same way: (R08.1) each of the seven check entry points (4 REST single, REST batch, gRPC Check, gRPC BatchCheck) reaches (*Engine).CheckRelationTuple in the keto call graph and maps its input with the read-only mapper; (R08.2) every value stored into an 'Allowed' response field or returned as the decision is the engine's boolean, 'Membership == IsMember' of the engine's Result, or the constant false; (R08.3) the status-mirroring handlers write 200 only where allowed is true and 403 only where it is false, the always-200 handlers write 200 on both; (R08.4) batch: the result slot index and the tuple come from the same loop iteration, each slot is written only from that iteration's own tuple (its check or its mapping error), responses are built index-aligned with one entry per request tuple, the size limit is tested before the engine is called; (R08.5) the JSON body of a request is decoded into a fresh local value; (R08.6) no visited set is installed by code that fans out several checks (batch entries are evaluated independently); (R08.7) the URL-query, protobuf and string encodings of a tuple are decoded by reading exactly the keys/fields the encoders write, unmodified. " +
			"Not decided: equality of decoded inputs across encodings (C18), engine determinism (C01/C14).",
		Assumptions: []string{
			"routes ending in /openapi are the always-200 variants (documented API)",
			"herodot Writer.Write answers 200 and WriteCode answers the given code",
		},
		Run: runC08,
	})
}

func checkEntries(p *core.Program) ([]core.Entry, []string) {
	es, probs := p.Entries()
	var out []core.Entry
	for _, e := range es {
		if pk := core.FuncPkg(e.Fn); pk != nil && pk.Path() == checkPkg {
			out = append(out, e)
		}
	}
	return out, probs
}

// allowedOrigin classifies where a boolean decision value comes from.
func allowedOrigin(p *core.Program, v ssa.Value, ri *core.ResultInfo, depth int, seen map[ssa.Value]bool) (ok bool, desc string) {
	if depth > 6 {
		return false, "origin too deep"
	}
	v = core.ValueOrigin(v)
	if seen[v] {
		return true, "cycle"
	}
	seen[v] = true
	switch x := v.(type) {
	case *ssa.Const:
		if x.Value != nil && x.Value.String() == "false" {
			return true, "constant false"
		}
		return false, "constant " + x.String() + " used as a decision"
	case *ssa.BinOp:
		if x.Op == token.EQL {
			_, cx, cy, _ := core.BinCmp(x)
			if k, isK := core.IntConst(cy); isK && k == ri.MemberVals["IsMember"] && core.IsNamed(cx.Type(), checkgroupPkg, "Membership") {
				// Membership of an engine Result
				return membershipFromEngine(cx)
			}
		}
		return false, "decision computed by " + x.String()
	case *ssa.UnOp, *ssa.Field:
		// entry := helper(result); ... entry.allowed: a boolean field of a small struct a helper of
		// the package returns - every value the helper stores into that field must be a decision
		var base ssa.Value
		fidx := -1
		switch y := x.(type) {
		case *ssa.UnOp:
			if fa, ok := y.X.(*ssa.FieldAddr); ok && y.Op == token.MUL {
				base, fidx = fa.X, fa.Field
			}
		case *ssa.Field:
			base, fidx = y.X, y.Field
		}
		if base != nil {
			call, _ := core.ValueOrigin(base).(*ssa.Call)
			if al, ok := base.(*ssa.Alloc); ok && call == nil {
				if sts := core.CellStores(al); len(sts) == 1 {
					call, _ = core.ValueOrigin(sts[0].Val).(*ssa.Call)
				}
			}
			if call != nil {
				if h := call.Common().StaticCallee(); h != nil && h.Blocks != nil && core.FuncPkg(h) != nil && core.FuncPkg(h).Path() == checkPkg {
					st := core.NamedOf(call.Type())
					var ds []string
					n := 0
					bad := ""
					core.Instrs(h, func(_ *ssa.BasicBlock, _ int, ins ssa.Instruction) {
						s2, ok := ins.(*ssa.Store)
						if !ok {
							return
						}
						fa, ok := s2.Addr.(*ssa.FieldAddr)
						if !ok || fa.Field != fidx || st == nil || core.NamedOf(fa.X.Type()) != st {
							return
						}
						n++
						o, d := allowedOrigin(p, s2.Val, ri, depth+1, seen)
						if !o {
							bad = core.FuncName(h) + ": " + d
						}
						ds = append(ds, d)
					})
					if n > 0 && bad == "" {
						return true, core.FuncName(h) + " -> " + strings.Join(dedupe(ds), " | ")
					}
					if bad != "" {
						return false, bad
					}
				}
			}
		}
		return false, "decision has an unrecognised origin: " + v.String()
	case *ssa.Phi:
		var ds []string
		for _, e := range x.Edges {
			o, d := allowedOrigin(p, e, ri, depth+1, seen)
			if !o {
				return false, d
			}
			ds = append(ds, d)
		}
		return true, strings.Join(dedupe(ds), " | ")
	case *ssa.Extract:
		call, isCall := x.Tuple.(*ssa.Call)
		if !isCall {
			return false, "decision extracted from " + x.Tuple.String()
		}
		return callDecision(p, call, ri, depth, seen)
	case *ssa.Call:
		return callDecision(p, x, ri, depth, seen)
	case *ssa.Parameter:
		// a helper that is handed the decision: every live call of it must hand over a decision
		fn := x.Parent()
		idx := -1
		for i, q := range fn.Params {
			if q == x {
				idx = i
			}
		}
		pk := core.FuncPkg(fn)
		if idx < 0 || pk == nil || pk.Path() != checkPkg || (fn.Object() != nil && fn.Object().Exported()) {
			return false, "decision is a parameter " + x.Name()
		}
		live, _ := p.KG().Live()
		var ds []string
		n := 0
		for _, e := range p.KG().In[fn] {
			if !live[e.Caller] {
				continue
			}
			ci, isCall := e.Site.(ssa.CallInstruction)
			if e.Kind != "static" || !isCall || idx >= len(ci.Common().Args) {
				return false, "decision is a parameter " + x.Name() + " of a function that is not only called directly"
			}
			n++
			o, d := allowedOrigin(p, ci.Common().Args[idx], ri, depth+1, seen)
			if !o {
				return false, "parameter " + x.Name() + " of " + core.FuncName(fn) + " <- " + d
			}
			ds = append(ds, d)
		}
		if n == 0 {
			return false, "decision is a parameter " + x.Name() + " of a function without callers"
		}
		return true, "parameter " + x.Name() + " <- " + strings.Join(dedupe(ds), " | ")
	}
	return false, "decision has an unrecognised origin: " + v.String()
}

func callDecision(p *core.Program, call *ssa.Call, ri *core.ResultInfo, depth int, seen map[ssa.Value]bool) (bool, string) {
	sc := call.Common().StaticCallee()
	if sc == nil {
		return false, "decision from a dynamic call"
	}
	if sc.Name() == "CheckIsMember" && core.FuncPkg(sc) != nil && core.FuncPkg(sc).Path() == checkPkg {
		return true, "Engine.CheckIsMember"
	}
	pk := core.FuncPkg(sc)
	if pk == nil || pk.Path() != checkPkg || sc.Blocks == nil {
		return false, "decision from " + core.FuncName(sc)
	}
	// a helper of package check returning (bool, error): every returned bool must itself be a decision
	var ds []string
	okAll := true
	why := ""
	core.Instrs(sc, func(_ *ssa.BasicBlock, _ int, ins ssa.Instruction) {
		ret, ok := ins.(*ssa.Return)
		if !ok {
			return
		}
		for _, rv := range ret.Results {
			if !core.BoolType(rv.Type()) {
				continue
			}
			o, d := allowedOrigin(p, rv, ri, depth+1, seen)
			if !o {
				okAll = false
				why = core.FuncName(sc) + ": " + d
			}
			ds = append(ds, d)
		}
	})
	if !okAll {
		return false, why
	}
	return true, core.FuncName(sc) + " -> " + strings.Join(dedupe(ds), " | ")
}

// membershipFromEngine: the Membership value is a field of a Result that comes
// from the engine (CheckRelationTuple, or an element of BatchCheck's results).
func membershipFromEngine(m ssa.Value) (bool, string) {
	var res ssa.Value
	switch x := m.(type) {
	case *ssa.Field:
		res = x.X
	case *ssa.UnOp:
		if fa, ok := x.X.(*ssa.FieldAddr); ok {
			res = fa.X
		}
	}
	if res == nil {
		return false, "Membership read from an unrecognised place"
	}
	seen := map[ssa.Value]bool{}
	var walk func(v ssa.Value) (bool, string)
	walk = func(v ssa.Value) (bool, string) {
		v = core.ValueOrigin(v)
		if v == nil || seen[v] {
			return false, "cyclic origin"
		}
		seen[v] = true
		switch x := v.(type) {
		case *ssa.Call:
			if sc := x.Common().StaticCallee(); sc != nil && (sc.Name() == "CheckRelationTuple" || sc.Name() == "BatchCheck") {
				return true, "Engine." + sc.Name()
			}
			return false, "Result from " + x.String()
		case *ssa.Extract:
			switch t := x.Tuple.(type) {
			case *ssa.Call:
				return walk(t)
			case *ssa.Next:
				if r, ok := t.Iter.(*ssa.Range); ok {
					return walk(r.X)
				}
			}
		case *ssa.UnOp:
			if x.Op == token.MUL {
				switch a := x.X.(type) {
				case *ssa.IndexAddr:
					return walk(a.X)
				case *ssa.Alloc:
					for _, st := range core.CellStores(a) {
						return walk(st.Val)
					}
				}
			}
		case *ssa.Index:
			return walk(x.X)
		case *ssa.IndexAddr:
			return walk(x.X) // &results[i].Membership
		case *ssa.Alloc:
			for _, st := range core.CellStores(x) {
				return walk(st.Val)
			}
		case *ssa.Parameter:
			// a helper that is handed the Result: every live call hands over an engine result
			fn := x.Parent()
			idx := -1
			for i, q := range fn.Params {
				if q == x {
					idx = i
				}
			}
			if membershipProg == nil || idx < 0 || (fn.Object() != nil && fn.Object().Exported()) {
				return false, "Result is a parameter " + x.Name()
			}
			kg := membershipProg.KG()
			live, _ := kg.Live()
			n, desc := 0, ""
			for _, e := range kg.In[fn] {
				if !live[e.Caller] {
					continue
				}
				ci, isCall := e.Site.(ssa.CallInstruction)
				if e.Kind != "static" || !isCall || idx >= len(ci.Common().Args) {
					return false, "Result is a parameter of a function that is not only called directly"
				}
				ok, d := walk(ci.Common().Args[idx])
				if !ok {
					return false, "parameter " + x.Name() + " <- " + d
				}
				n++
				desc = d
			}
			if n == 0 {
				return false, "Result is a parameter of a function without callers"
			}
			return true, desc + " (through parameter " + x.Name() + ")"
		}
		return false, "Result of unrecognised origin " + v.String()
	}
	return walk(res)
}

// membershipProg gives membershipFromEngine access to the call graph (set by runC08).
var membershipProg *core.Program

func runC08(c *Ctx) {
	p, r := c.P, c.R
	membershipProg = p
	ri, err := p.ResultInfo(checkgroupPkg)
	if err != nil {
		r.Undecide("R08.2", "", "anchor checkgroup.Result", "", err.Error())
		return
	}
	entries, probs := checkEntries(p)
	for _, pr := range probs {
		r.Undecide("R08.1", "", "entry-table: "+pr, "", pr)
	}
	g := p.KG()
	engineRoot := p.Func("(*internal/check.Engine).CheckRelationTuple")
	if engineRoot == nil {
		r.Undecide("R08.1", "", "anchor CheckRelationTuple", "", "(*Engine).CheckRelationTuple not found")
		return
	}
	guarded, _ := mapperGuardedSites(c)
	skip := func(e *core.KEdge) bool { return e.Site != nil && guarded[e.Site] }
	for _, e := range entries {
		reach := g.Reach([]*ssa.Function{e.Fn}, skip)
		name := core.FuncName(e.Fn)
		construct := "entry " + e.Transport + " " + e.Verb + " " + e.Path
		usesRO, usesRW := false, false
		for f := range reach.Parent {
			if f.Name() == "ReadOnlyMapper" {
				usesRO = true
			}
			if f.Name() == "Mapper" && f.Signature.Params().Len() == 0 {
				usesRW = true
			}
		}
		switch {
		case !reach.Has(engineRoot):
			r.Violate("R08.1", name, construct, e.Pos, "this check entry point does not reach Engine.CheckRelationTuple: its decision is computed by something other than the engine")
		case !usesRO || usesRW:
			r.Violate("R08.1", name, construct, e.Pos, fmt.Sprintf("this check entry point does not map its input through the read-only mapper (reaches ReadOnlyMapper: %v, reaches Mapper: %v, %d functions reachable)", usesRO, usesRW, len(reach.Parent)))
		default:
			r.Discharge("R08.1", name, construct, e.Pos, "reaches Engine.CheckRelationTuple ("+reach.Path(engineRoot)+") and maps through ReadOnlyMapper")
		}
	}
	r.Floor("R08.1", 7, "4 REST single, REST batch, gRPC Check, gRPC BatchCheck")

	// R08.2 stores into Allowed fields
	nAllowed := 0
	allowedIn := map[*ssa.Function]bool{}
	for _, fn := range p.KetoFuncs("internal/check") {
		core.Instrs(fn, func(_ *ssa.BasicBlock, _ int, ins ssa.Instruction) {
			st, ok := ins.(*ssa.Store)
			if !ok {
				return
			}
			fa, ok := st.Addr.(*ssa.FieldAddr)
			if !ok || !core.BoolType(st.Val.Type()) {
				return
			}
			fv := fieldVarOf(fa)
			if fv == nil || fv.Name() != "Allowed" {
				return
			}
			nAllowed++
			allowedIn[core.Outermost(fn)] = true
			ok2, desc := allowedOrigin(p, st.Val, ri, 0, map[ssa.Value]bool{})
			owner := "?"
			if n := core.NamedOf(fa.X.Type()); n != nil {
				owner = n.Obj().Name()
			}
			if !ok2 && strings.Contains(desc, "unrecognised") {
				r.Undecide("R08.2", core.FuncName(fn), owner+".Allowed", p.Pos(st.Pos()), "cannot trace the decision written to the response back to the engine: "+desc)
				return
			}
			r.Check(ok2, "R08.2", core.FuncName(fn), owner+".Allowed", p.Pos(st.Pos()),
				"the decision written to the response is "+desc, "the decision written to the response is not the engine's: "+desc)
		})
	}
	// floor: every check entry writes its decision through a store judged above (in its own body
	// or in a helper it calls)
	for _, e := range entries {
		reach := g.Reach([]*ssa.Function{e.Fn}, nil)
		hit := false
		for f := range allowedIn {
			if reach.Has(f) {
				hit = true
			}
		}
		if !hit {
			r.Undecide("R08.2", core.FuncName(e.Fn), "Allowed store of the entry", e.Pos, "no store into an Allowed response field was found on the paths of this check entry")
		}
	}
	if nAllowed < 1 || len(entries) < 7 {
		r.Undecide("R08.2", "", "Allowed stores", "", fmt.Sprintf("%d stores into an Allowed field, %d check entries (floor 1 and 7)", nAllowed, len(entries)))
	}

	// R08.3 mirror handlers
	for _, e := range entries {
		if e.Transport != "rest" || strings.Contains(e.Path, "batch") {
			continue
		}
		fn := e.Fn
		name := core.FuncName(fn)
		mirror := !strings.HasSuffix(e.Path, "/openapi")
		var allowedVal ssa.Value
		type wcall struct {
			ins  ssa.Instruction
			code int64
			dec  ssa.Value // the decision as seen where the write is (a helper's parameter), nil: allowedVal
		}
		var writes []wcall
		collect := func(in *ssa.Function, decision ssa.Value) {
			core.Instrs(in, func(_ *ssa.BasicBlock, _ int, ins ssa.Instruction) {
				ci, ok := ins.(ssa.CallInstruction)
				if !ok {
					return
				}
				obj := core.CalleeObj(ci.Common())
				if obj == nil {
					return
				}
				if obj.Pkg() != nil && obj.Pkg().Path() == herodotPkg {
					switch obj.Name() {
					case "Write":
						writes = append(writes, wcall{ins, 200, decision})
					case "WriteCode":
						for _, a := range ci.Common().Args {
							if k, ok := core.IntConst(a); ok {
								writes = append(writes, wcall{ins, k, decision})
							}
						}
					case "WriteCreated":
						writes = append(writes, wcall{ins, 201, decision})
					}
				}
			})
		}
		collect(fn, nil)
		// the decision: first bool result of a helper call
		core.Instrs(fn, func(_ *ssa.BasicBlock, _ int, ins ssa.Instruction) {
			if ex, ok := ins.(*ssa.Extract); ok && core.BoolType(ex.Type()) {
				if _, ok := ex.Tuple.(*ssa.Call); ok && allowedVal == nil {
					allowedVal = ex
				}
			}
		})
		// a helper of the package the handler hands the decision to writes the response for it
		if allowedVal != nil {
			core.Instrs(fn, func(_ *ssa.BasicBlock, _ int, ins ssa.Instruction) {
				ci, ok := ins.(ssa.CallInstruction)
				if !ok {
					return
				}
				sc := ci.Common().StaticCallee()
				if sc == nil || sc.Blocks == nil || core.FuncPkg(sc) == nil || core.FuncPkg(sc).Path() != checkPkg {
					return
				}
				for i, a := range ci.Common().Args {
					if core.ValueOrigin(a) == allowedVal && i < len(sc.Params) {
						collect(sc, sc.Params[i])
					}
				}
			})
		}
		if allowedVal == nil || len(writes) == 0 {
			r.Undecide("R08.3", name, "status of "+e.Path, e.Pos, "cannot find the decision value or the response writes in this handler")
			continue
		}
		var bad []string
		for _, w := range writes {
			pol := 0 // +1 only when allowed, -1 only when denied
			dec := allowedVal
			if w.dec != nil {
				dec = w.dec
			}
			for _, cd := range core.CondsAt(w.ins.Block()) {
				v, truth := cd.V, cd.True
				for {
					u, isNot := v.(*ssa.UnOp)
					if !isNot || u.Op != token.NOT {
						break
					}
					v, truth = u.X, !truth
				}
				if core.ValueOrigin(v) == dec {
					if truth {
						pol = 1
					} else {
						pol = -1
					}
				}
			}
			switch {
			case mirror && w.code == 200 && pol != 1:
				bad = append(bad, fmt.Sprintf("200 is written at %s where 'allowed' is not known to be true", p.Pos(w.ins.Pos())))
			case mirror && w.code == 403 && pol != -1:
				bad = append(bad, fmt.Sprintf("403 is written at %s where 'allowed' is not known to be false", p.Pos(w.ins.Pos())))
			case mirror && w.code != 200 && w.code != 403:
				bad = append(bad, fmt.Sprintf("status %d written by a check handler", w.code))
			case !mirror && w.code != 200:
				bad = append(bad, fmt.Sprintf("the always-200 variant writes status %d", w.code))
			}
		}
		if mirror {
			has200, has403 := false, false
			for _, w := range writes {
				has200 = has200 || w.code == 200
				has403 = has403 || w.code == 403
			}
			if !has200 || !has403 {
				bad = append(bad, "the status-mirroring handler does not write both 200 and 403")
			}
		}
		kind := "always-200"
		if mirror {
			kind = "status-mirroring"
		}
		r.Check(len(bad) == 0, "R08.3", name, "status of "+e.Verb+" "+e.Path, e.Pos,
			kind+" handler: response codes agree with the decision on every branch", strings.Join(bad, "; "))
	}
	r.Floor("R08.3", 4, "GET/POST x mirror/openapi")

	r084(c, ri)
	r085(c, "R08.5", []string{"internal/check"})
	// R08.6 batch entries are independent of each other: no visited set is installed by the code that fans the entries out
	visitedInstallScope(c, "R08.6")
	// R08.7 the transports decode the same tuple from their encodings (the C18 agreement rules)
	c.R.SubRun(func() { runC18(c) }, map[string]string{"R18.1": "R08.7", "R18.2": "R08.7", "R18.3": "R08.7"})
}

func fieldVarOf(fa *ssa.FieldAddr) *types.Var {
	pt, ok := fa.X.Type().Underlying().(*types.Pointer)
	if !ok {
		return nil
	}
	st, ok := pt.Elem().Underlying().(*types.Struct)
	if !ok || fa.Field >= st.NumFields() {
		return nil
	}
	return st.Field(fa.Field)
}

// ---- R08.4 batch alignment -----------------------------------------------------------------

// rangeOf: for a value extracted from `for i, x := range S`, return the Range
// (or the loop phi for index loops) and whether it is the key or the value.
func rangeOf(v ssa.Value) (iter ssa.Value, part string) {
	v = core.ValueOrigin(v)
	switch x := v.(type) {
	case *ssa.Extract:
		if nx, ok := x.Tuple.(*ssa.Next); ok {
			switch x.Index {
			case 1:
				return nx.Iter, "key"
			case 2:
				return nx.Iter, "value"
			}
		}
	case *ssa.UnOp:
		if x.Op == token.MUL {
			if ia, ok := x.X.(*ssa.IndexAddr); ok {
				// range over a slice lowers to an index loop: the element of
				// iteration k is slice[k]
				return core.ValueOrigin(ia.Index), "value"
			}
		}
	case *ssa.Index:
		return core.ValueOrigin(x.Index), "value"
	case *ssa.BinOp, *ssa.Phi:
		if b, ok := v.Type().Underlying().(*types.Basic); ok && b.Info()&types.IsInteger != 0 {
			return v, "key"
		}
	}
	return nil, ""
}

func r084(c *Ctx, ri *core.ResultInfo) {
	p, r := c.P, c.R
	bc := p.Func("(*internal/check.Engine).BatchCheck")
	if bc == nil {
		r.Undecide("R08.4", "", "anchor Engine.BatchCheck", "", "function not found")
		return
	}
	// every store of a Result into an element of a []Result inside BatchCheck and its closures
	nStores := 0
	for _, fn := range core.Closures(bc) {
		core.Instrs(fn, func(_ *ssa.BasicBlock, _ int, ins ssa.Instruction) {
			st, ok := ins.(*ssa.Store)
			if !ok {
				return
			}
			// results[i] = ...  or  slot := &results[i]; *slot = ...
			ia, ok := core.ValueOrigin(st.Addr).(*ssa.IndexAddr)
			if !ok || !ri.IsResult(st.Val.Type()) {
				return
			}
			nStores++
			name := core.FuncName(fn)
			idxIter, idxPart := rangeOf(ia.Index)
			// the value: everything it is computed from (through helpers) that is an element of a
			// ranged-over slice must be this iteration's element
			srcs, fixed := iterSources(st.Val)
			ok2 := idxIter != nil && idxPart == "key" && len(srcs) > 0 && !fixed
			var names []string
			for it := range srcs {
				names = append(names, nameOf(it))
				if it != idxIter {
					ok2 = false
				}
			}
			sort.Strings(names)
			detail := fmt.Sprintf("slot index from %s of %v, value computed from the element(s) of iteration %v (an element at a fixed index: %v)", idxPart, nameOf(idxIter), names, fixed)
			r.Check(ok2, "R08.4", name, "results[i] = ...", p.Pos(st.Pos()),
				"the slot index and the tuple whose check/mapping produced the value come from the same loop iteration: "+detail,
				"a batch result slot is written from something other than its own tuple's check: "+detail)
		})
	}
	if nStores < 1 {
		r.Undecide("R08.4", core.FuncName(bc), "results[i] stores", p.Pos(bc.Pos()), fmt.Sprintf("%d stores into the batch results found (floor 1)", nStores))
	}
	// handlers: responses[i] built from results[i]; size limit before the engine call
	for _, hn := range []string{"(*internal/check.Handler).doBatchCheck", "(*internal/check.Handler).BatchCheck"} {
		fn := p.Func(hn)
		if fn == nil {
			r.Undecide("R08.4", hn, "anchor", "", "handler not found")
			continue
		}
		var engineCall ssa.Instruction
		var limitIf *ssa.If
		core.Instrs(fn, func(b *ssa.BasicBlock, _ int, ins ssa.Instruction) {
			if ci, ok := ins.(*ssa.Call); ok {
				if sc := ci.Common().StaticCallee(); sc == bc {
					engineCall = ins
				}
			}
			if ifi, ok := ins.(*ssa.If); ok {
				if op, x, y, ok := core.BinCmp(ifi.Cond); ok && (op == token.GTR || op == token.LSS || op == token.GEQ || op == token.LEQ) {
					if core.IsCallTo(x, "BatchCheckMaxBatchSize") || core.IsCallTo(y, "BatchCheckMaxBatchSize") {
						limitIf = ifi
					}
				}
			}
		})
		okLimit := engineCall != nil && limitIf != nil && limitIf.Block().Dominates(engineCall.Block())
		r.Check(okLimit, "R08.4", hn, "size limit before the engine call", p.Pos(fn.Pos()),
			"the batch size is compared with the configured maximum in a block that dominates the engine call",
			"the batch size limit is not tested before the engine is called")
		// response stores
		n := 0
		core.Instrs(fn, func(_ *ssa.BasicBlock, _ int, ins ssa.Instruction) {
			st, ok := ins.(*ssa.Store)
			if !ok {
				return
			}
			ia, ok := st.Addr.(*ssa.IndexAddr)
			if !ok {
				return
			}
			// only the response slices (elements are pointers to ...WithError structs)
			et := st.Val.Type()
			if nt := core.NamedOf(et); nt == nil || !strings.Contains(nt.Obj().Name(), "WithError") {
				return
			}
			n++
			idxIter, idxPart := rangeOf(ia.Index)
			// the Allowed field of the stored struct: everything it is computed from (through
			// helpers) that is an element of a ranged-over slice is this iteration's result
			alloc, _ := st.Val.(*ssa.Alloc)
			nAllowedStores := 0
			ok2 := idxIter != nil && idxPart == "key"
			if alloc != nil && alloc.Referrers() != nil {
				for _, ref := range *alloc.Referrers() {
					fa, ok := ref.(*ssa.FieldAddr)
					if !ok || fieldVarOf(fa) == nil || fieldVarOf(fa).Name() != "Allowed" || fa.Referrers() == nil {
						continue
					}
					for _, r2 := range *fa.Referrers() {
						s2, ok := r2.(*ssa.Store)
						if !ok || s2.Addr != ssa.Value(fa) {
							continue
						}
						nAllowedStores++
						srcs, fixed := iterSources(s2.Val)
						if len(srcs) == 0 || fixed {
							ok2 = false
						}
						for it := range srcs {
							if it != idxIter {
								ok2 = false
							}
						}
					}
				}
			}
			if nAllowedStores == 0 {
				ok2 = false
			}
			r.Check(ok2, "R08.4", hn, "responses[i] from results[i]", p.Pos(st.Pos()),
				"response slot i is built from engine result i of the same range iteration",
				"a batch response slot is not built from the engine result of the same index")
		})
		if n == 0 {
			r.Undecide("R08.4", hn, "responses[i] from results[i]", p.Pos(fn.Pos()), "no store into the response slice found")
		}
	}
}

func nameOf(v ssa.Value) string {
	if v == nil {
		return "?"
	}
	return v.Name()
}

// resultTupleOrigin: which loop iteration's tuple does a stored Result derive from?
func resultTupleOrigin(v ssa.Value, ri *core.ResultInfo) (iter ssa.Value, part, how string) {
	v = core.ValueOrigin(v)
	// results[i] = e.CheckRelationTuple(ctx, internalTuple[0], depth)
	tupleOfMapped := func(mapped ssa.Value) (ssa.Value, string) {
		// internalTuple[0] -> mapper.FromTuple(ctx, tuple)
		m := core.ValueOrigin(mapped)
		if u, ok := m.(*ssa.UnOp); ok {
			if ia, ok := u.X.(*ssa.IndexAddr); ok {
				m = core.ValueOrigin(ia.X)
			}
		}
		if ex, ok := m.(*ssa.Extract); ok {
			if call, ok := ex.Tuple.(*ssa.Call); ok && core.IsCallTo(call, "FromTuple") {
				for _, a := range call.Common().Args {
					// variadic: []*T{tuple}
					if sl, ok := a.(*ssa.Slice); ok {
						if al, ok := sl.X.(*ssa.Alloc); ok && al.Referrers() != nil {
							for _, ref := range *al.Referrers() {
								if ia, ok := ref.(*ssa.IndexAddr); ok && ia.Referrers() != nil {
									for _, r2 := range *ia.Referrers() {
										if st, ok := r2.(*ssa.Store); ok {
											it, part := rangeOf(st.Val)
											if it != nil {
												return it, part
											}
										}
									}
								}
							}
						}
					}
					if it, part := rangeOf(a); it != nil && part == "value" {
						return it, part
					}
				}
			}
		}
		return nil, ""
	}
	switch x := v.(type) {
	case *ssa.Call:
		if sc := x.Common().StaticCallee(); sc != nil && sc.Name() == "CheckRelationTuple" {
			for _, a := range x.Common().Args {
				if core.IsNamed(a.Type(), relPkg, "RelationTuple") {
					it, part := tupleOfMapped(a)
					return it, part, "Engine.CheckRelationTuple on the mapped tuple"
				}
			}
		}
		return nil, "", "value from " + x.String()
	case *ssa.Alloc:
		// Result{Membership: Unknown, Err: err} with err from FromTuple of this tuple
		if x.Referrers() != nil {
			for _, ref := range *x.Referrers() {
				fa, ok := ref.(*ssa.FieldAddr)
				if !ok || fa.Field != ri.EField || fa.Referrers() == nil {
					continue
				}
				for _, r2 := range *fa.Referrers() {
					if st, ok := r2.(*ssa.Store); ok {
						if ex, ok := core.ValueOrigin(st.Val).(*ssa.Extract); ok {
							it, part := tupleOfMapped(ex.Tuple.(ssa.Value))
							if it == nil {
								// err is Extract #1 of the same FromTuple call
								if call, ok := ex.Tuple.(*ssa.Call); ok && call.Referrers() != nil {
									for _, r3 := range *call.Referrers() {
										if e0, ok := r3.(*ssa.Extract); ok && e0.Index == 0 {
											it, part = tupleOfMapped(e0)
										}
									}
								}
							}
							return it, part, "mapping error of the tuple"
						}
					}
				}
			}
		}
	}
	return nil, "", "unrecognised value " + v.String()
}

// ---- R08.5 fresh decode targets (shared with C13/C14) -----------------------------------------

func r085(c *Ctx, rule string, rels []string) {
	p, r := c.P, c.R
	n := 0
	for _, rel := range rels {
		for _, fn := range p.KetoFuncs(rel) {
			core.Instrs(fn, func(_ *ssa.BasicBlock, _ int, ins ssa.Instruction) {
				ci, ok := ins.(ssa.CallInstruction)
				if !ok {
					return
				}
				obj := core.CalleeObj(ci.Common())
				if obj == nil || obj.Pkg() == nil || obj.Pkg().Path() != "encoding/json" || (obj.Name() != "Decode" && obj.Name() != "Unmarshal") {
					return
				}
				args := ci.Common().Args
				target := core.Unwrap(args[len(args)-1])
				n++
				name := core.FuncName(fn)
				al, isAlloc := target.(*ssa.Alloc)
				fresh := isAlloc && al.Parent() == fn
				if fresh {
					// no store into the target before the decode other than zeroing
					for _, st := range core.CellStores(al) {
						if st.Parent() == fn && core.InstrDominates(st, ins) {
							if _, isConst := st.Val.(*ssa.Const); !isConst {
								fresh = false
							}
						}
					}
				}
				r.Check(fresh, rule, name, "json decode target", p.Pos(ins.Pos()),
					"the request body is decoded into a fresh local value",
					"the request body is decoded into a value that is not a fresh local (pooled, shared or pre-filled): encoding/json leaves absent keys untouched, so fields of an earlier request survive into this one")
			})
		}
	}
	if n == 0 {
		r.Undecide(rule, "", "json decode target", "", "no JSON decode call found in the handler packages")
	}
}

// iterSources: the loop iterations whose element the value v is computed from - a backward data
// slice through operands, cells, captured variables, composite literals and (with parameters
// bound to the arguments) the returns of keto helpers. An element of a slice read at a loop
// counter k is the source k; fixed reports an element read at a constant index.
func iterSources(v ssa.Value) (srcs map[ssa.Value]bool, fixed bool) {
	srcs = map[ssa.Value]bool{}
	seen := map[ssa.Value]bool{}
	type frame struct {
		call *ssa.Call
		fn   *ssa.Function
	}
	var walk func(v ssa.Value, stack []frame, depth int)
	walk = func(v ssa.Value, stack []frame, depth int) {
		if v == nil || depth > 40 {
			return
		}
		if seen[v] {
			return
		}
		seen[v] = true
		switch x := v.(type) {
		case *ssa.Const, *ssa.Global, *ssa.Function, *ssa.Builtin:
			return
		case *ssa.Parameter:
			// a helper's parameter stands for the argument at the call we came through
			for i := len(stack) - 1; i >= 0; i-- {
				if stack[i].fn == x.Parent() {
					for k, q := range x.Parent().Params {
						if q == x && k < len(stack[i].call.Call.Args) {
							walk(stack[i].call.Call.Args[k], stack[:i], depth+1)
						}
					}
					return
				}
			}
			return
		case *ssa.FreeVar:
			if b := core.FreeVarBinding(x); b != nil {
				walk(b, stack, depth+1)
			}
			return
		case *ssa.Extract:
			if nx, ok := x.Tuple.(*ssa.Next); ok {
				if x.Index == 2 {
					srcs[nx.Iter] = true
				}
				return
			}
			walk(x.Tuple, stack, depth+1)
			return
		case *ssa.UnOp:
			if x.Op == token.MUL {
				switch a := x.X.(type) {
				case *ssa.IndexAddr:
					if _, isSlice := a.X.Type().Underlying().(*types.Slice); isSlice {
						if _, isK := core.IntConst(a.Index); isK {
							// an element at a fixed index: of a ranged-over input, or of a local list
							if _, isPar := core.ValueOrigin(a.X).(*ssa.Parameter); isPar {
								fixed = true
								return
							}
						} else if it, part := rangeOf(x); it != nil && part == "value" && loopCounter(a.Index) {
							srcs[it] = true
							return
						}
					}
					walk(a.X, stack, depth+1)
					return
				case *ssa.Alloc:
					for _, st := range core.CellStores(a) {
						walk(st.Val, stack, depth+1)
					}
					// fields and elements written into the cell
					walk(a, stack, depth+1)
					return
				}
			}
			walk(x.X, stack, depth+1)
			return
		case *ssa.IndexAddr:
			// &xs[k].f read in place: the element of iteration k
			if _, isSlice := x.X.Type().Underlying().(*types.Slice); isSlice {
				if _, isK := core.IntConst(x.Index); isK {
					if _, isPar := core.ValueOrigin(x.X).(*ssa.Parameter); isPar {
						fixed = true
						return
					}
				} else if loopCounter(x.Index) {
					srcs[core.ValueOrigin(x.Index)] = true
					return
				}
			}
			walk(x.X, stack, depth+1)
			return
		case *ssa.Alloc:
			if x.Referrers() != nil {
				for _, ref := range *x.Referrers() {
					switch y := ref.(type) {
					case *ssa.Store:
						if y.Addr == ssa.Value(x) {
							walk(y.Val, stack, depth+1)
						}
					case *ssa.FieldAddr:
						if y.Referrers() != nil {
							for _, r2 := range *y.Referrers() {
								if st, ok := r2.(*ssa.Store); ok && st.Addr == ssa.Value(y) {
									walk(st.Val, stack, depth+1)
								}
							}
						}
					case *ssa.IndexAddr:
						if y.Referrers() != nil {
							for _, r2 := range *y.Referrers() {
								if st, ok := r2.(*ssa.Store); ok && st.Addr == ssa.Value(y) {
									walk(st.Val, stack, depth+1)
								}
							}
						}
					}
				}
			}
			return
		case *ssa.Call:
			callee := x.Call.StaticCallee()
			if callee != nil && callee.Blocks != nil && len(stack) < 3 && core.FuncPkg(callee) != nil && core.IsKeto(core.FuncPkg(callee)) && callee.Name() != "CheckRelationTuple" && callee.Name() != "FromTuple" {
				st2 := append(append([]frame{}, stack...), frame{x, callee})
				core.Instrs(callee, func(_ *ssa.BasicBlock, _ int, ins ssa.Instruction) {
					if ret, ok := ins.(*ssa.Return); ok {
						for _, rv := range ret.Results {
							// a value seen in one calling context may mean something else in another
							delete(seen, rv)
							walk(rv, st2, depth+1)
						}
					}
				})
				return
			}
			for _, a := range x.Call.Args {
				walk(a, stack, depth+1)
			}
			if !x.Call.IsInvoke() {
				walk(x.Call.Value, stack, depth+1)
			}
			return
		}
		if ins, ok := v.(ssa.Instruction); ok {
			var ops []*ssa.Value
			for _, op := range ins.Operands(ops) {
				if op != nil && *op != nil {
					walk(*op, stack, depth+1)
				}
			}
		}
	}
	walk(v, nil, 0)
	return
}
