package rules

import (
	"fmt"
	"go/ast"
	"go/token"
	"go/types"
	"os"
	"strings"

	"golang.org/x/tools/go/ssa"

	"ketosa/internal/core"
)

func init() {
	Register(&Property{
		ID: "C13",
		Explanation: "Decides the absence of request-controlled nil dereferences and the classification of malformed input: (R13.1) a forward taint analysis marks every pointer a client can make nil -- elements of []*T and *T fields decoded from JSON (null / absent key), message-typed and oneof fields of protobuf request messages read by field selection or through getters -- follows them through calls, closures, variadic packing, append and struct fields across the keto functions reachable from every API entry point, and requires every dereference (field access, load, method call on a nil pointer/interface, non-comma-ok type assertion) to be dominated by a nil test of that value or of another load of the same field; a sink inside a goroutine started on the request path is process-fatal; (R13.2) every parser of request text (strconv.Parse*, uuid.FromString, JSON decoding) on a request path returns or writes, on its error branch, an error whose herodot status is 4xx, and errors of the mapping/validation layer are never re-wrapped as 5xx by a handler; (R13.3) each gRPC interceptor chain starts with the recovery interceptor and later interceptors are only appended, so a handler panic is answered instead of ending the process; (R13.8) the query mappers copy a field under the nil test of its pointer only, never depending on its value (a present-but-empty namespace stays a namespace: 404, not 'all namespaces'); (R13.7) token text of an OPL document enters an error message only through %q (raw bytes in a proto string field make the gRPC syntax check answer Internal); (R13.6) a REST write entry that reads the URL query also parses it strictly (a malformed query is a 400, not a silently different request); (R13.4) the page size that reaches LIMIT and the has-more test is normalised (0 = default, negative rejected), and no allocation on a request path is sized by the page size or the depth; (R13.5) the recursions that run on request input (OPL type check, expression parser, check engine) carry a termination certificate, since a stack overflow kills the process and cannot be recovered. " +
			"Not decided: that state is unchanged on a 4xx (partly C04/C05), exhaustion, panics inside libraries.",
		Assumptions: []string{
			"protobuf-go never delivers nil elements in repeated fields, nor a nil message inside a set oneof wrapper, for messages decoded from the wire",
			"generated protobuf getters are nil-safe",
		},
		Run: runC13,
	})
}

func runC13(c *Ctx) {
	p, r := c.P, c.R
	entries, probs := p.Entries()
	for _, pr := range probs {
		r.Undecide("R13.1", "", "entry-table: "+pr, "", pr)
	}
	for _, bad := range core.CheckEntryFloors(entries) {
		r.Undecide("R13.1", "", "entry-floor "+bad, "", bad)
	}
	nt := core.NewNilTaint(p, entries)
	if os.Getenv("KETOSA_DEBUG") != "" {
		for _, f := range p.KetoFuncs("ketoapi") {
			core.Instrs(f, func(_ *ssa.BasicBlock, _ int, ins ssa.Instruction) {})
		}
		for _, pk := range p.KetoPackages() {
			for _, f := range p.KetoFuncs(core.RelPath(pk.PkgPath)) {
				core.Instrs(f, func(_ *ssa.BasicBlock, _ int, ins ssa.Instruction) {
					if ci, ok := ins.(ssa.CallInstruction); ok {
						if obj := core.CalleeObj(ci.Common()); obj != nil && obj.Name() == "ToProto" {
							var recv ssa.Value
							if ci.Common().IsInvoke() {
								recv = ci.Common().Value
							} else if len(ci.Common().Args) > 0 {
								recv = ci.Common().Args[0]
							}
							if nt.R[recv] {
								fmt.Fprintf(os.Stderr, "DEBUG ToProto on request data at %s in %s (%s)\n", p.Pos(ins.Pos()), core.FuncName(f), recv)
							}
						}
					}
				})
			}
		}
	}
	r.Note("taint_seeds", nt.Seeds)
	r.Note("client_nullable_values", len(nt.N))
	r.Note("request_derived_values", len(nt.R))
	for _, s := range nt.Guarded {
		r.Discharge("R13.1", core.FuncName(s.Fn), s.What+" of "+s.Origin, p.Pos(s.Ins.Pos()), "the dereference is dominated by a nil test of the value")
	}
	for _, s := range nt.Sinks {
		sev := "the handler panics (connection closed without a response)"
		if s.InGo {
			sev = "the dereference runs in a goroutine started on the request path, where no recovery exists: the server process exits"
		}
		var facts []string
		for q := s.Fn; q != nil; q = q.Parent() {
			for _, par := range q.Params {
				if w, ok := nt.WhyR[par]; ok {
					facts = append(facts, "request data reaches "+core.FuncName(q)+"("+par.Name()+") as "+w)
				}
			}
		}
		r.Violate("R13.1", core.FuncName(s.Fn), s.What+" of "+s.Origin, p.Pos(s.Ins.Pos()), "a pointer the client can make nil is dereferenced without a nil test: "+sev, facts...)
	}
	if len(nt.N) < 10 || len(nt.Guarded)+len(nt.Sinks) < 6 {
		r.Undecide("R13.1", "", "taint coverage", "", fmt.Sprintf("only %d client-nullable values and %d dereferences of them found (floors 10 / 6): the taint seeds or the propagation no longer reach the handlers", len(nt.N), len(nt.Guarded)+len(nt.Sinks)))
	}

	r132(c, entries)
	r133(c)
	r134alloc(c, entries)
	r0412(c, "R13.6")
	rawTextVerbs(c, "R13.7")
	mapperQueryGuards(c, "R13.8")
	// R13.4
	r073(c)
	for _, o := range r.Obls {
		if o.Rule == "R07.3" {
			o.Rule = "R13.4"
		}
	}
	// R13.5
	for _, ct := range core.TerminationCerts(p, []string{schemaRel, "internal/check", "internal/check/checkgroup", "internal/expand", "internal/relationtuple", "ketoapi"}) {
		if ct.OK {
			r.Discharge("R13.5", strings.Join(ct.Funcs, ", "), "recursive cycle", ct.Pos, ct.Detail)
		} else {
			r.Violate("R13.5", strings.Join(ct.Funcs, ", "), "recursive cycle", ct.Pos, "a recursion on request-controlled input has no termination certificate (a stack overflow kills the process): "+ct.Detail, ct.Edges...)
		}
	}
	r.Floor("R13.5", 5, "engine, expand, expression parser, recursive type check, simplifyExpression")
}

// ---- R13.2 classification of parse failures ------------------------------------------------------

func isRequestTextParser(obj *types.Func) bool {
	if obj.Pkg() == nil {
		return false
	}
	switch obj.Pkg().Path() {
	case "strconv":
		return strings.HasPrefix(obj.Name(), "Parse") || obj.Name() == "Atoi"
	case "github.com/gofrs/uuid":
		return obj.Name() == "FromString"
	case "encoding/json":
		return obj.Name() == "Decode" || obj.Name() == "Unmarshal"
	case "net/url":
		return obj.Name() == "ParseQuery"
	}
	return false
}

func r132(c *Ctx, entries []core.Entry) {
	p, r := c.P, c.R
	g := p.KG()
	var roots []*ssa.Function
	for _, e := range entries {
		roots = append(roots, e.Fn)
	}
	reach := g.ReachLive(roots, nil)
	var fns []*ssa.Function
	for f := range reach.Parent {
		pk := core.FuncPkg(f)
		if pk == nil || !core.IsKeto(pk) || f.Blocks == nil {
			continue
		}
		if strings.HasPrefix(pk.Path(), core.KetoMod+"/proto/") || strings.Contains(pk.Path(), "/driver/config") || strings.Contains(pk.Path(), "/migrations") {
			continue
		}
		// json.Unmarshaler implementations surface through the caller's Decode
		if f.Name() == "UnmarshalJSON" {
			continue
		}
		fns = append(fns, f)
	}
	n := 0
	for _, site := range core.ErrSites(fns, isRequestTextParser) {
		n++
		name := core.FuncName(site.Fn)
		construct := "parse error of " + core.ObjName(site.Callee)
		if site.Err == nil {
			r.Violate("R13.2", name, construct, p.Pos(site.Call.Pos()), "the error of a parser of request text is discarded")
			continue
		}
		// a request validator (func(*http.Request) (ok bool, reason string)): the failure leaves as ok == false,
		// which validate.All turns into herodot.ErrBadRequest (its only error result, checked here once)
		if isValidatorFunc(site.Fn) {
			if validatorFailsClosed(site) && validateAllIsBadRequest(p) {
				r.Discharge("R13.2", name, construct, p.Pos(site.Call.Pos()), "the validator answers ok=false on a parse failure and validate.All reports failed validators as 400")
			} else {
				r.Violate("R13.2", name, construct, p.Pos(site.Call.Pos()), "the validator does not answer ok=false when parsing the request fails (or validate.All does not report a 4xx)")
			}
			continue
		}
		// the values that leave on the err != nil region
		codes, bad := escapeCodes(p, site)
		switch {
		case len(bad) > 0:
			r.Violate("R13.2", name, construct, p.Pos(site.Call.Pos()), "a parse failure of request input is not answered as a client error: "+strings.Join(bad, "; "))
		case len(codes) == 0:
			r.Undecide("R13.2", name, construct, p.Pos(site.Call.Pos()), "cannot find what is returned or written when parsing fails")
		default:
			r.Discharge("R13.2", name, construct, p.Pos(site.Call.Pos()), fmt.Sprintf("on failure the handler answers with status %v", codes))
		}
	}
	if n < 6 {
		r.Undecide("R13.2", "", "request text parsers", "", fmt.Sprintf("%d found on request paths (floor 6)", n))
	}
	// mapper / validation errors are not re-wrapped as 5xx
	mapperSrc := func(obj *types.Func) bool {
		sig := obj.Type().(*types.Signature)
		if sig.Recv() == nil {
			return false
		}
		nn := core.NamedOf(sig.Recv().Type())
		if nn == nil || nn.Obj().Pkg() == nil {
			return false
		}
		if nn.Obj().Pkg().Path() == relPkg && nn.Obj().Name() == "Mapper" {
			return true
		}
		return nn.Obj().Pkg().Path() == core.KetoMod+"/ketoapi" && obj.Name() == "Validate"
	}
	var hfns []*ssa.Function
	for _, f := range fns {
		pk := core.FuncPkg(f).Path()
		if pk == checkPkg || pk == relPkg || pk == core.KetoMod+"/internal/expand" {
			hfns = append(hfns, f)
		}
	}
	nm := 0
	for _, site := range core.ErrSites(hfns, mapperSrc) {
		if site.Err == nil {
			continue
		}
		nm++
		codes, _ := escapeCodes(p, site)
		// also every value the error flows into (phi with other errors, err.Error()
		// re-wrapped, ...) that is returned or written
		d := core.DerivedSet(site.Err)
		core.Instrs(site.Fn, func(_ *ssa.BasicBlock, _ int, ins ssa.Instruction) {
			var vals []ssa.Value
			switch x := ins.(type) {
			case *ssa.Return:
				vals = append(vals, x.Results...)
			case ssa.CallInstruction:
				if obj := core.CalleeObj(x.Common()); obj != nil && obj.Pkg() != nil && obj.Pkg().Path() == herodotPkg && strings.HasPrefix(obj.Name(), "WriteError") {
					vals = append(vals, x.Common().Args...)
				}
			}
			for _, v := range vals {
				if d[v] && v != site.Err {
					if cd, _ := herodotCode(p, v, 0); cd > 0 {
						codes = append(codes, cd)
					}
				}
			}
		})
		is5xx := false
		for _, cd := range codes {
			if cd >= 500 {
				is5xx = true
			}
		}
		r.Check(!is5xx, "R13.2", core.FuncName(site.Fn), "error of "+core.ObjName(site.Callee)+" passed on", p.Pos(site.Call.Pos()),
			"the mapping/validation error (which carries its own 4xx status) is passed on unchanged",
			"a handler wraps the error of the mapping/validation layer into a 5xx error: an unknown namespace or malformed tuple is answered as a server error")
	}
	if nm < 8 {
		r.Undecide("R13.2", "", "mapper error sites", "", fmt.Sprintf("%d found (floor 8)", nm))
	}
}

// escapeCodes: the herodot status codes of the values that are returned or
// written in the region where the error is non-nil; bad lists escapes that are
// not 4xx.
func escapeCodes(p *core.Program, site core.ErrSite) (codes []int64, bad []string) {
	fn := site.Fn
	e := site.Err
	// blocks dominated by e != nil
	inRegion := func(b *ssa.BasicBlock) bool {
		for _, cd := range core.CondsAt(b) {
			if op, x, y, ok := core.BinCmp(cd.V); ok && core.IsNilConst(y) && x == e {
				if (op == token.NEQ && cd.True) || (op == token.EQL && !cd.True) {
					return true
				}
			}
		}
		return false
	}
	tested := false
	core.Instrs(fn, func(b *ssa.BasicBlock, _ int, ins ssa.Instruction) {
		if !inRegion(b) {
			return
		}
		tested = true
		var vals []ssa.Value
		switch x := ins.(type) {
		case *ssa.Return:
			for _, rv := range x.Results {
				if isErr(rv.Type()) && !core.IsNilConst(rv) {
					vals = append(vals, rv)
				}
			}
		case ssa.CallInstruction:
			if obj := core.CalleeObj(x.Common()); obj != nil && obj.Pkg() != nil && obj.Pkg().Path() == herodotPkg && strings.HasPrefix(obj.Name(), "WriteError") {
				for _, a := range x.Common().Args {
					if isErr(a.Type()) {
						vals = append(vals, a)
					}
				}
			}
		}
		for _, v := range vals {
			if core.Unwrap(v) == e {
				bad = append(bad, "the raw parser error is passed on (rendered as 500 / gRPC Unknown)")
				continue
			}
			code, why := herodotCode(p, v, 0)
			if code == 0 {
				bad = append(bad, why)
				continue
			}
			codes = append(codes, code)
			if code < 400 || code >= 500 {
				bad = append(bad, fmt.Sprintf("status %d", code))
			}
		}
	})
	if !tested {
		// the error is returned directly (return x, err): the raw error leaves
		core.Instrs(fn, func(_ *ssa.BasicBlock, _ int, ins ssa.Instruction) {
			if ret, ok := ins.(*ssa.Return); ok {
				for _, rv := range ret.Results {
					if rv == e {
						bad = append(bad, "the raw parser error is returned")
					}
				}
			}
		})
	}
	return
}

// ---- R13.3 the gRPC servers recover from handler panics ---------------------------------------------

// r133: every interceptor chain handed to grpc.Chain{Unary,Stream}Interceptor
// starts with the recovery interceptor (element 0 of the slice literal the
// chain grows from; later elements are only appended), so a panic in any later
// interceptor or in a handler is answered, not propagated to the goroutine.
func r133(c *Ctx) {
	p, r := c.P, c.R
	const recPkg = "github.com/grpc-ecosystem/go-grpc-middleware/v2/interceptors/recovery"
	n := 0
	var rootOK func(v ssa.Value, seen map[ssa.Value]bool) (bool, string)
	rootOK = func(v ssa.Value, seen map[ssa.Value]bool) (bool, string) {
		if seen[v] {
			return true, ""
		}
		seen[v] = true
		switch x := v.(type) {
		case *ssa.Phi:
			for _, e := range x.Edges {
				if ok, why := rootOK(e, seen); !ok {
					return false, why
				}
			}
			return true, ""
		case *ssa.Call:
			if b, ok := x.Call.Value.(*ssa.Builtin); ok && b.Name() == "append" {
				if isEmptySlice(x.Call.Args[0]) && len(x.Call.Args) > 1 {
					// append(make([]T, 0, n), first, ...): the first appended element is element 0
					return rootOK(x.Call.Args[1], seen)
				}
				return rootOK(x.Call.Args[0], seen)
			}
			if sc := x.Call.StaticCallee(); sc != nil && core.FuncPkg(sc) != nil && core.IsKeto(core.FuncPkg(sc)) {
				ok, why := true, ""
				found := false
				for _, b := range sc.Blocks {
					if ret, isRet := b.Instrs[len(b.Instrs)-1].(*ssa.Return); isRet && len(ret.Results) > 0 {
						found = true
						if o, w := rootOK(ret.Results[0], seen); !o {
							ok, why = false, w
						}
					}
				}
				if !found {
					return false, "callee " + core.FuncName(sc) + " has no return"
				}
				return ok, why
			}
			return false, "the chain comes from a call that is not analysed"
		case *ssa.Slice:
			al, ok := x.X.(*ssa.Alloc)
			if !ok {
				return rootOK(x.X, seen)
			}
			for _, ref := range *al.Referrers() {
				ia, ok := ref.(*ssa.IndexAddr)
				if !ok {
					continue
				}
				if k, isK := core.IntConst(ia.Index); !isK || k != 0 {
					continue
				}
				for _, r2 := range *ia.Referrers() {
					if st, ok := r2.(*ssa.Store); ok {
						if call, ok := st.Val.(*ssa.Call); ok {
							if obj := core.CalleeObj(&call.Call); obj != nil && obj.Pkg() != nil && obj.Pkg().Path() == recPkg {
								return true, ""
							}
						}
						return false, "element 0 of the chain is not the recovery interceptor (" + p.Pos(st.Pos()) + ")"
					}
				}
			}
			return false, "the chain's slice literal has no element 0"
		}
		return false, fmt.Sprintf("the chain is built from %T, not from a slice literal grown by append", v)
	}
	for _, fn := range p.KetoFuncs("internal/driver") {
		core.Instrs(fn, func(_ *ssa.BasicBlock, _ int, ins ssa.Instruction) {
			call, ok := ins.(*ssa.Call)
			if !ok {
				return
			}
			obj := core.CalleeObj(&call.Call)
			if obj == nil || obj.Pkg() == nil || obj.Pkg().Path() != "google.golang.org/grpc" || (obj.Name() != "ChainUnaryInterceptor" && obj.Name() != "ChainStreamInterceptor") {
				return
			}
			n++
			ok2, why := rootOK(call.Call.Args[0], map[ssa.Value]bool{})
			r.Check(ok2, "R13.3", core.FuncName(fn), "grpc."+obj.Name(), p.Pos(call.Pos()),
				"the interceptor chain starts with the recovery interceptor and is only appended to",
				"a panic in a handler or a later interceptor is not recovered on this server: "+why)
		})
	}
	if n < 2 {
		r.Undecide("R13.3", "", "grpc.Chain*Interceptor call sites", "", fmt.Sprintf("%d found (floor 2)", n))
	}
}

// isEmptySlice: make([]T, 0[, n]), a nil slice, or []T{}.
func isEmptySlice(v ssa.Value) bool {
	switch x := v.(type) {
	case *ssa.MakeSlice:
		k, ok := core.IntConst(x.Len)
		return ok && k == 0
	case *ssa.Const:
		return x.IsNil()
	case *ssa.Slice:
		if _, ok := x.X.(*ssa.Alloc); ok && x.High != nil {
			k, ok := core.IntConst(x.High)
			return ok && k == 0
		}
	}
	return false
}

// ---- R13.4 (allocation part): no allocation is sized by a request integer -----------------------

// r134alloc: the page size and the depth are the integers a client controls
// (both only bounded below). Neither may size an allocation: make([]T, n) /
// make([]T, 0, n) / make(map, n) with n derived from them panics ("cap out of
// range") or exhausts memory for a large value, before any row is read.
func r134alloc(c *Ctx, entries []core.Entry) {
	p, r := c.P, c.R
	var roots []*ssa.Function
	for _, e := range entries {
		roots = append(roots, e.Fn)
	}
	reach := p.KG().ReachLive(roots, nil).Parent
	isReqIntField := func(fv *types.Var) bool {
		if fv == nil {
			return false
		}
		switch fv.Name() {
		case "PerPage", "Size", "PageSize", "MaxDepth":
			b, ok := fv.Type().Underlying().(*types.Basic)
			return ok && b.Info()&types.IsInteger != 0
		}
		return false
	}
	n := 0
	for f := range reach {
		pk := core.FuncPkg(f)
		if pk == nil || !core.IsKeto(pk) || strings.HasPrefix(pk.Path(), core.KetoMod+"/proto/") {
			continue
		}
		core.Instrs(f, func(_ *ssa.BasicBlock, _ int, ins ssa.Instruction) {
			var sizes []ssa.Value
			switch x := ins.(type) {
			case *ssa.MakeSlice:
				sizes = []ssa.Value{x.Len, x.Cap}
			case *ssa.MakeMap:
				if x.Reserve != nil {
					sizes = []ssa.Value{x.Reserve}
				}
			case *ssa.MakeChan:
				sizes = []ssa.Value{x.Size}
			default:
				return
			}
			n++
			src := ""
			seen := map[ssa.Value]bool{}
			var walk func(v ssa.Value, d int)
			walk = func(v ssa.Value, d int) {
				if v == nil || seen[v] || d > 10 || src != "" {
					return
				}
				seen[v] = true
				switch x := v.(type) {
				case *ssa.BinOp:
					walk(x.X, d+1)
					walk(x.Y, d+1)
				case *ssa.Convert:
					walk(x.X, d+1)
				case *ssa.ChangeType:
					walk(x.X, d+1)
				case *ssa.Phi:
					for _, e := range x.Edges {
						walk(e, d+1)
					}
				case *ssa.UnOp:
					if fa, ok := x.X.(*ssa.FieldAddr); ok && x.Op == token.MUL {
						if fv := fieldVarOf(fa); isReqIntField(fv) {
							src = "field " + fv.Name()
							return
						}
					}
					walk(x.X, d+1)
				case *ssa.Field:
					if st, ok := x.X.Type().Underlying().(*types.Struct); ok && isReqIntField(st.Field(x.Field)) {
						src = "field " + st.Field(x.Field).Name()
					}
				case *ssa.Call:
					// min(a, b) bounds the value when one operand is not request controlled: not followed
					if b, ok := x.Call.Value.(*ssa.Builtin); ok && b.Name() == "min" {
						return
					}
					if obj := core.CalleeObj(&x.Call); obj != nil && (obj.Name() == "GetPageSize" || obj.Name() == "GetMaxDepth") {
						src = "request getter " + obj.Name()
					}
				}
			}
			for _, s := range sizes {
				walk(s, 0)
			}
			if src == "field PerPage" && !optsMayComeFromRequest(p, core.Outermost(f)) {
				src = "" // the pagination options of this function are never supplied by a caller: PerPage is the default
			}
			if src != "" {
				r.Violate("R13.4", core.FuncName(f), "allocation sized by a request integer", p.Pos(ins.Pos()),
					"an allocation is sized by "+src+", which the client sets and which has no upper bound: a huge value panics in make (cap out of range) or exhausts memory before anything is read")
			}
		})
	}
	if n < 10 {
		r.Undecide("R13.4", "", "allocations on request paths", "", fmt.Sprintf("%d make() found (floor 10)", n))
	} else {
		r.Discharge("R13.4", "", "allocations on request paths", "", fmt.Sprintf("none of the %d make() calls reachable from the API is sized by the page size or the depth", n))
	}
}

// optsMayComeFromRequest: fn has a variadic pagination-options parameter that
// some caller fills (or fn is reachable through an interface, where callers are
// not enumerable). When every static call site passes no options the page size
// inside fn is the built-in default.
func optsMayComeFromRequest(p *core.Program, fn *ssa.Function) bool {
	idx := -1
	for i, par := range fn.Params {
		if sl, ok := par.Type().Underlying().(*types.Slice); ok {
			if n := core.NamedOf(sl.Elem()); n != nil && strings.Contains(n.Obj().Name(), "PaginationOption") {
				idx = i
			}
		}
	}
	if idx < 0 {
		return true
	}
	g := p.KG()
	sites := 0
	for _, e := range g.In[fn] {
		if e.Kind != "static" {
			return true // invoked through an interface / function value: callers unknown
		}
		ci, ok := e.Site.(ssa.CallInstruction)
		if !ok || idx >= len(ci.Common().Args) {
			return true
		}
		sites++
		if c, isConst := ci.Common().Args[idx].(*ssa.Const); !isConst || !c.IsNil() {
			return true
		}
	}
	return sites == 0
}

// isValidatorFunc: func(*http.Request) (bool, string).
func isValidatorFunc(fn *ssa.Function) bool {
	sig := fn.Signature
	if sig.Params().Len() != 1 || sig.Results().Len() != 2 {
		return false
	}
	pt, ok := sig.Params().At(0).Type().Underlying().(*types.Pointer)
	if !ok || !core.IsNamed(pt.Elem(), "net/http", "Request") {
		return false
	}
	b, ok := sig.Results().At(0).Type().Underlying().(*types.Basic)
	return ok && b.Kind() == types.Bool
}

// validatorFailsClosed: on the err != nil branch of the parse the function returns false.
func validatorFailsClosed(site core.ErrSite) bool {
	ok := false
	for _, b := range site.Fn.Blocks {
		if len(b.Instrs) == 0 {
			continue
		}
		ret, isRet := b.Instrs[len(b.Instrs)-1].(*ssa.Return)
		if !isRet || len(ret.Results) != 2 {
			continue
		}
		for _, cd := range core.CondsAt(b) {
			op, x, y, isCmp := core.BinCmp(cd.V)
			if isCmp && x == site.Err && core.IsNilConst(y) && ((op == token.NEQ && cd.True) || (op == token.EQL && !cd.True)) {
				if k, isK := ret.Results[0].(*ssa.Const); isK && k.Value != nil && k.Value.String() == "false" {
					ok = true
				} else {
					return false
				}
			}
		}
	}
	return ok
}

// validateAllIsBadRequest: validate.All returns herodot.ErrBadRequest... for failed validators.
func validateAllIsBadRequest(p *core.Program) bool {
	fn := p.Func("internal/x/validate.All")
	if fn == nil {
		return false
	}
	found := false
	for _, b := range fn.Blocks {
		if len(b.Instrs) == 0 {
			continue
		}
		if ret, ok := b.Instrs[len(b.Instrs)-1].(*ssa.Return); ok && len(ret.Results) == 1 && !core.IsNilConst(ret.Results[0]) {
			code, _ := herodotCode(p, ret.Results[0], 0)
			if code >= 400 && code < 500 {
				found = true
			} else {
				return false
			}
		}
	}
	return found
}

// ---- R13.8 a query field that is present is never treated as absent ------------------------------------

// mapperQueryGuards: the query mappers (Mapper.FromQuery / ToQuery) copy a
// field into the storage query when the API query has it. "Has it" is the nil
// test of the pointer: a mapper that also looks at the value (skips "") turns a
// present-but-empty namespace into "no namespace filter", and a delete or list
// then runs over every namespace instead of being answered 404.
func mapperQueryGuards(c *Ctx, rule string) {
	p, r := c.P, c.R
	pkg := p.Pkg("internal/relationtuple")
	if pkg == nil {
		r.Undecide(rule, "", "anchor package relationtuple", "", "not loaded")
		return
	}
	info := pkg.TypesInfo
	errT := types.Universe.Lookup("error").Type()
	n := 0
	for _, name := range []string{"Mapper.FromQuery", "Mapper.ToQuery"} {
		fd := core.FuncDecl(pkg, name)
		if fd == nil {
			r.Undecide(rule, name, "anchor", "", "not found")
			continue
		}
		var resObj types.Object
		if fd.Type.Results != nil && len(fd.Type.Results.List) > 0 && len(fd.Type.Results.List[0].Names) > 0 {
			resObj = info.Defs[fd.Type.Results.List[0].Names[0]]
		}
		var bad []string
		ast.Inspect(fd.Body, func(nd ast.Node) bool {
			as, ok := nd.(*ast.AssignStmt)
			if !ok || len(as.Lhs) != 1 {
				return true
			}
			sel, ok := unparen(as.Lhs[0]).(*ast.SelectorExpr)
			if !ok || resObj == nil || objOf(info, sel.X) != resObj {
				return true
			}
			n++
			for _, g := range guardsOf(fd.Body, as) {
				conj := []ast.Expr{g.Cond}
				if g.True {
					conj = nil
					var split func(e ast.Expr)
					split = func(e ast.Expr) {
						if be, ok := unparen(e).(*ast.BinaryExpr); ok && be.Op == token.LAND {
							split(be.X)
							split(be.Y)
							return
						}
						conj = append(conj, e)
					}
					split(g.Cond)
				}
				for _, cj := range conj {
					_, x, y, isCmp := cmpParts(info, cj)
					if isCmp && isNilExpr(info, y) {
						continue // presence test / err == nil
					}
					if isCmp {
						if t := info.TypeOf(x); t != nil && types.Identical(t, errT) {
							continue
						}
					}
					bad = append(bad, fmt.Sprintf("%s is set only if %s (%s)", types.ExprString(as.Lhs[0]), types.ExprString(cj), p.Pos(as.Pos())))
				}
			}
			return true
		})
		fname := "internal/relationtuple.(*" + strings.Replace(name, ".", ").", 1)
		r.Check(len(bad) == 0, rule, fname, "query fields copied under presence tests only", p.Pos(fd.Pos()),
			"every field of the mapped query is set under nil (presence) tests only",
			strings.Join(dedupe(bad), "; ")+": a field that is present with that value is dropped from the query, which then matches regardless of it")
	}
	if n < 4 {
		r.Undecide(rule, "", "fields set by the query mappers", "", fmt.Sprintf("%d found (floor 4)", n))
	}
}
