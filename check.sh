#!/bin/sh
# check.sh <property-id> [quick|thorough]
# Decides the structural rules of one property from /repo's current working tree.
set -u
HERE="$(cd "$(dirname "$0")" && pwd)"
ID="${1:?usage: check.sh <property-id> [quick|thorough]}"
TIER="${2:-${VERIF_TIER:-quick}}"
unset GOWORK GOTOOLCHAIN GOSUMDB
export GOFLAGS=-mod=mod GOPROXY=off
REPO="${KETO_REPO:-/repo}"
if [ ! -x "$HERE/bin/ketosa" ] || [ -n "$(find "$HERE/sa" -name '*.go' -newer "$HERE/bin/ketosa" 2>/dev/null | head -1)" ]; then
  (cd "$HERE/sa" && go build -o "$HERE/bin/ketosa" ./cmd/ketosa) || { echo "check.sh: cannot build the checker" >&2; exit 2; }
fi
exec "$HERE/bin/ketosa" -property "$ID" -tier "$TIER" -repo "$REPO" -out "$HERE/evidence" -known "$HERE/known_findings.json"
